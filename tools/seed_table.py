#!/usr/bin/env python3
"""prints the seeds x checks table (markdown) from seeded/*/meta.json"""
import json, os, glob
VERIF = os.path.dirname(os.path.dirname(os.path.abspath(__file__)))
rows = []
for mp in sorted(glob.glob(os.path.join(VERIF, "seeded", "*", "meta.json"))):
    m = json.load(open(mp))
    sid = m["id"]
    own = m.get("breaks_property")
    det = [d["check"] for d in m.get("detected_by", [])]
    first = ""
    for d in m.get("detected_by", []):
        if d["check"] == own and d["violations"]:
            first = d["violations"][0].split("::")[0]
    notes = os.path.join(os.path.dirname(mp), "notes.md")
    what = ""
    if os.path.exists(notes):
        for line in open(notes):
            line = line.strip()
            if line.startswith("#"):
                what = line.lstrip("# ").strip()
                break
    rows.append((sid, own, what[:110], ", ".join(det) or "—", "yes (%s)" % first if own in det else ("by " + ", ".join(det) if det else "**no**")))
print("| seed | breaks | change (from its notes) | reported by | own check |")
print("|---|---|---|---|---|")
for r in rows:
    print("| %s | %s | %s | %s | %s |" % r)
