#!/usr/bin/env python3
"""Development-time helper: apply behaviour-preserving refactorings (benign/<id>/patch.diff) to scratch copies of /repo and run
every claimed check: any violation the unchanged tree does not have is a FALSE ALARM of the machinery and has to be corrected.
usage: tools/refactor_matrix.py [dir with <id>/patch.diff ...]   (default /verif/benign)"""
import glob, json, os, shutil, subprocess, sys, tempfile
VERIF = os.path.dirname(os.path.dirname(os.path.abspath(__file__)))
sys.path.insert(0, os.path.join(VERIF, "tools"))
from seed_matrix import run_checks  # noqa: E402


def main():
    root = sys.argv[1] if len(sys.argv) > 1 else os.path.join(VERIF, "benign")
    only = sys.argv[2:]
    props = [c["property_id"] for c in json.load(open(os.path.join(VERIF, "MANIFEST.json")))["checks"]]
    base_dir = tempfile.mkdtemp(prefix="rfmx-", dir="/tmp")
    alarms = 0
    try:
        base = run_checks("/repo", os.path.join(base_dir, "ev-base"), props)
        for pd in sorted(glob.glob(os.path.join(root, "*", "patch.diff")) + glob.glob(os.path.join(root, "*", "*", "patch.diff"))):
            rid = os.path.relpath(os.path.dirname(pd), root).replace("/", "-")
            if only and rid not in only:
                continue
            scratch = os.path.join(base_dir, "repo-" + rid)
            subprocess.run(["git", "-C", "/repo", "worktree", "add", "-q", "--detach", scratch, "HEAD"], check=True)
            try:
                r = subprocess.run("git apply %s || git apply --3way %s" % (pd, pd), shell=True, cwd=scratch, stdout=subprocess.PIPE, stderr=subprocess.STDOUT, text=True)
                if r.returncode != 0:
                    print("%-10s PATCH DOES NOT APPLY" % rid)
                    continue
                got = run_checks(scratch, os.path.join(base_dir, "ev-" + rid), props)
                fired = {p: sorted(got[p][1] - base[p][1])[:3] for p in props if got[p][1] - base[p][1]}
                errs = [p for p in props if got[p][0] > 1]
                alarms += len(fired)
                print("%-10s %s %s%s" % (rid, "silent" if not fired else "FALSE ALARM", json.dumps(fired) if fired else "", (" ERRORS=%s" % errs) if errs else ""))
                sys.stdout.flush()
            finally:
                subprocess.run(["git", "-C", "/repo", "worktree", "remove", "--force", scratch])
    finally:
        shutil.rmtree(base_dir, ignore_errors=True)
        subprocess.run(["git", "-C", "/repo", "worktree", "prune"])
    return 1 if alarms else 0


if __name__ == "__main__":
    sys.exit(main())
