#!/usr/bin/env python3
"""Development-time helper (not a registered check): confirm a seeded change in a scratch worktree.

  tools/verify_seed.py <dir with patch.diff, demo.rs, notes.md> <seed id> <property> [--keep]

Confirms: the patch applies and compiles, the existing suite result equals the baseline (217 pass, the same
10 fail), the demonstration fails with the change and passes without it.  On success copies the material to
/verif/seeded/<id>/ with meta.json.  The scratch worktree (and its build output) is removed afterwards.
"""
import json
import os
import re
import shutil
import subprocess
import sys

BASE_FAIL = {
    "conditionals::simple_conditionals", "conditionals::truthiness_test", "control_flow::indented_else",
    "examples::fibonacci", "examples::hello_world", "examples::ninety_nine_beers", "functions::function_calls",
    "literals::poetic_numbers", "operators::and_test", "queues::push",
}
VERIF = os.path.dirname(os.path.dirname(os.path.abspath(__file__)))


def sh(cmd, cwd, timeout=1200, env=None):
    e = dict(os.environ)
    e["CARGO_NET_OFFLINE"] = "true"
    if env:
        e.update(env)
    try:
        r = subprocess.run(cmd, cwd=cwd, shell=True, stdout=subprocess.PIPE, stderr=subprocess.STDOUT, text=True, timeout=timeout, env=e)
        return r.returncode, r.stdout
    except subprocess.TimeoutExpired as ex:
        return 124, (ex.stdout or "") if isinstance(ex.stdout, str) else "timeout"


def suite(wt, target):
    rc, out = sh("cargo test --workspace --no-fail-fast --offline 2>&1", wt, env={"CARGO_TARGET_DIR": target})
    passed = len(re.findall(r"^test .* \.\.\. ok$", out, re.M))
    failed = set()
    cur = None
    for line in out.splitlines():
        m = re.match(r"\s+Running (?:unittests )?(\S+)", line)
        if m:
            cur = os.path.basename(m.group(1)).replace(".rs", "")
        m = re.match(r"^test (\S+) \.\.\. FAILED$", line)
        if m:
            name = m.group(1)
            failed.add((cur + "::" + name) if cur and cur not in ("lib", "main") else name)
    return passed, failed, out


def main():
    src, sid, prop = sys.argv[1], sys.argv[2], sys.argv[3]
    wt = "/tmp/wt/verify-%s" % sid
    target = "/tmp/wt/verify-target"
    sh("git -C /repo worktree remove --force %s" % wt, "/")
    rc, out = sh("git -C /repo worktree add -q --detach %s HEAD" % wt, "/")
    if rc != 0:
        print(out)
        return 2
    result = {"id": sid, "property": prop, "ok": False}
    try:
        patch = os.path.abspath(os.path.join(src, "patch.diff"))
        demo = os.path.abspath(os.path.join(src, "demo.rs"))
        rc, out = sh("git apply %s || git apply --3way %s" % (patch, patch), wt)
        if rc != 0:
            result["error"] = "patch does not apply: " + out[-500:]
            return finish(result)
        passed, failed, out = suite(wt, target)
        result["suite_with_change"] = {"passed": passed, "failed": sorted(failed)}
        if "error: could not compile" in out or "error[E" in out:
            result["error"] = "does not compile"
            return finish(result)
        if passed != 217 or failed != BASE_FAIL:
            result["error"] = "suite differs from baseline: %d passed, failed %s" % (passed, sorted(failed ^ BASE_FAIL))
            return finish(result)
        shutil.copy(demo, os.path.join(wt, "tests", "seeded_demo.rs"))
        rc, out = sh("timeout 600 cargo test --offline --test seeded_demo 2>&1", wt, env={"CARGO_TARGET_DIR": target})
        result["demo_with_change_rc"] = rc
        if rc == 0:
            result["error"] = "demo passes with the change"
            return finish(result)
        if "could not compile" in out:
            result["error"] = "demo does not compile: " + out[-800:]
            return finish(result)
        m = re.findall(r"^test result: .*$", out, re.M)
        result["demo_with_change"] = m[-1] if m else out[-300:]
        sh("git reset -q; git checkout -- src", wt)
        rc, out = sh("timeout 600 cargo test --offline --test seeded_demo 2>&1", wt, env={"CARGO_TARGET_DIR": target})
        result["demo_without_change_rc"] = rc
        m = re.findall(r"^test result: .*$", out, re.M)
        result["demo_without_change"] = m[-1] if m else out[-300:]
        if rc != 0:
            result["error"] = "demo fails on the pristine tree"
            return finish(result)
        result["ok"] = True
        dst = os.path.join(VERIF, "seeded", sid)
        os.makedirs(dst, exist_ok=True)
        shutil.copy(patch, os.path.join(dst, "patch.diff"))
        shutil.copy(demo, os.path.join(dst, "demo.rs"))
        notes = os.path.join(src, "notes.md")
        if os.path.exists(notes):
            shutil.copy(notes, os.path.join(dst, "notes.md"))
        meta = {
            "id": sid,
            "breaks_property": prop,
            "needs_to_manifest": "see notes.md",
            "confirmed": {
                "suite_with_change": "217 passed, the 10 baseline failures (cargo test --workspace --no-fail-fast --offline)",
                "demo_with_change": result["demo_with_change"],
                "demo_without_change": result["demo_without_change"],
                "how": "tools/verify_seed.py in a scratch worktree of /repo HEAD, removed afterwards",
            },
            "detected_by": [],
        }
        mp = os.path.join(dst, "meta.json")
        if os.path.exists(mp):
            old = json.load(open(mp))
            meta["detected_by"] = old.get("detected_by", [])
            meta["needs_to_manifest"] = old.get("needs_to_manifest", meta["needs_to_manifest"])
        json.dump(meta, open(mp, "w"), indent=1)
        return finish(result)
    finally:
        sh("git -C /repo worktree remove --force %s" % wt, "/")


def finish(result):
    print(json.dumps(result, indent=1))
    return 0 if result["ok"] else 1


if __name__ == "__main__":
    sys.exit(main())
