#!/usr/bin/env python3
"""Development-time helper: dumps the kind tables KIND computes on the current tree into spec/kind_tables.json.
The file is a *reviewed reference*: every cell was read against DESIGN.md Appendix A and the property texts; the cells
of finding D12 are overridden with the value the decay law prescribes (array counts as its length), so that today's
deviating value is reported as a known finding and the conforming value is accepted."""
import json, os, sys
VERIF = os.path.dirname(os.path.dirname(os.path.abspath(__file__)))
sys.path.insert(0, VERIF)
from sa import factgen, core, kindtables as kt

outdir, h = factgen.ensure_facts(("dev",))
F = core.load_facts(outdir, "dev")
T = kt.Tables(F)
L = kt.LET
spec = {"binary": {}, "unary": {}, "param": {}}
for name in ["plus", "subtract", "multiply", "divide", "equals", "compare", "index", "index_or_insert"]:
    tab = T.binary(name)
    ws = name in ("index_or_insert",)
    spec["binary"][name] = {L[a] + L[b]: kt.cell(tab[(a, b)], ws) for a in kt.KINDS for b in kt.KINDS}
for name in ["negate", "is_truthy", "decay", "to_string_for_output", "pop", "round_up", "round_down", "round_nearest", "array_coerce"]:
    u = T.unary(name)
    spec["unary"][name] = {L[a]: kt.cell(u[a], True) for a in kt.KINDS}
u = T.unary("inc", [("sym", "x")])
spec["unary"]["inc"] = {L[a]: kt.cell(u[a], True) for a in kt.KINDS}
for name in ["split", "join", "cast"]:
    t = T.with_option_param(name)
    spec["param"][name] = {L[a] + ":" + (p if p == "None" else L[p]): kt.cell(t[(a, p)], True) for a in kt.KINDS for p in ["None"] + kt.KINDS}
# ---- D12: cells where an array operand must behave like its length (a number)
d12 = {}
for op in ["plus", "subtract", "multiply", "divide", "equals", "compare"]:
    tab = spec["binary"][op]
    for k in "ULBNS":
        for cellname, ref in (("A" + k, "N" + k), (k + "A", k + "N")):
            if tab[cellname] != tab[ref]:
                d12[op + ":" + cellname] = {"today": tab[cellname], "law": tab[ref]}
                tab[cellname] = tab[ref]
if spec["unary"]["negate"]["A"] != spec["unary"]["negate"]["N"]:
    d12["negate:A"] = {"today": spec["unary"]["negate"]["A"], "law": [x.replace("self=N", "self=A") for x in spec["unary"]["negate"]["N"]]}
    spec["unary"]["negate"]["A"] = d12["negate:A"]["law"]
spec["d12_cells"] = d12
spec["comment"] = "reviewed reference kind tables (see tools/gen_kind_tables.py and DESIGN.md Appendix A); d12_cells lists the cells where today's tree deviates from the decay law (known finding D12): there the reference is the law-conforming value and today's value is accepted only as a listed known finding"
json.dump(spec, open(os.path.join(VERIF, "spec", "kind_tables.json"), "w"), indent=1, sort_keys=True)
print("D12 cells:", len(d12))
for k, v in sorted(d12.items()):
    print("  ", k, v)
print("incomplete:", T.I.incomplete)
